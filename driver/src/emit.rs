use crate::json::J;
use rustc_abi::{FieldsShape, Primitive, Scalar, Variants};
use rustc_data_structures::fx::{FxHashMap, FxHashSet};
use rustc_hir::def::DefKind;
use rustc_hir::def_id::{DefId, LocalDefId, LOCAL_CRATE};
use rustc_middle::mir::{
    self, AggregateKind, BasicBlockData, BinOp, Body, BorrowKind, CastKind, Const as MirConst,
    ConstValue, NonDivergingIntrinsic, Operand, Place, ProjectionElem, Rvalue, StatementKind,
    TerminatorKind, UnwindAction,
};
use rustc_middle::ty::adjustment::PointerCoercion;
use rustc_middle::ty::print::{with_crate_prefix, with_no_trimmed_paths as wntp, with_no_visible_paths};
macro_rules! with_no_trimmed_paths { ($e:expr) => { with_no_visible_paths!(with_crate_prefix!(wntp!($e))) } }
use rustc_middle::ty::print::PrintTraitRefExt;
use rustc_middle::ty::util::IntTypeExt;
use rustc_middle::ty::{
    self, TypeVisitableExt, Unnormalized, EarlyBinder, GenericArgsRef, Instance, InstanceKind, Ty, TyCtxt, TyKind, TypingEnv,
};
use rustc_span::Span;
use std::collections::VecDeque;

const REPO_CRATES: &[&str] = &["multiboot2", "multiboot2_common", "multiboot2_header"];

pub struct Cx<'tcx> {
    tcx: TyCtxt<'tcx>,
    tys: FxHashMap<String, J>,
    adts: FxHashMap<String, J>,
    adt_queue: Vec<Ty<'tcx>>,
    adt_seen: FxHashSet<Ty<'tcx>>,
}

fn ts<'tcx>(ty: Ty<'tcx>) -> String {
    with_no_trimmed_paths!(format!("{}", ty))
}

impl<'tcx> Cx<'tcx> {
    fn crate_of(&self, def: DefId) -> String {
        self.tcx.crate_name(def.krate).to_string()
    }
    fn is_repo_def(&self, def: DefId) -> bool {
        let c = self.crate_of(def);
        REPO_CRATES.contains(&c.as_str())
    }
    fn span_str(&self, sp: Span) -> String {
        let sm = self.tcx.sess.source_map();
        // Use the outermost call site for macro expansions so the line is in user code.
        let sp2 = sp.source_callsite();
        let lo = sm.lookup_char_pos(sp2.lo());
        format!("{}:{}", lo.file.name.prefer_local_unconditionally().to_string(), lo.line)
    }

    // ------------------------------------------------------------------ types
    fn ty(&mut self, ty: Ty<'tcx>, env: TypingEnv<'tcx>) -> J {
        let s = ts(ty);
        if !self.tys.contains_key(&s) {
            // insert placeholder first to cut recursion
            self.tys.insert(s.clone(), J::Null);
            let info = self.ty_info(ty, env);
            self.tys.insert(s.clone(), info);
        }
        J::Str(s)
    }

    fn layout_sa(&self, ty: Ty<'tcx>, env: TypingEnv<'tcx>) -> Option<(u64, u64, bool)> {
        if ty.has_non_region_param() || ty.has_aliases() {
            return None;
        }
        match self.tcx.layout_of(env.as_query_input(ty)) {
            Ok(l) => Some((l.size.bytes(), l.align.abi.bytes(), l.is_unsized())),
            Err(_) => None,
        }
    }

    fn ty_info(&mut self, ty: Ty<'tcx>, env: TypingEnv<'tcx>) -> J {
        let mut o = J::obj();
        let tcx = self.tcx;
        let kind = match ty.kind() {
            TyKind::Bool => "bool",
            TyKind::Char => "char",
            TyKind::Int(_) => "int",
            TyKind::Uint(_) => "uint",
            TyKind::Float(_) => "float",
            TyKind::Adt(..) => "adt",
            TyKind::Foreign(_) => "foreign",
            TyKind::Str => "str",
            TyKind::Array(..) => "array",
            TyKind::Slice(_) => "slice",
            TyKind::RawPtr(..) => "ptr",
            TyKind::Ref(..) => "ref",
            TyKind::FnDef(..) => "fndef",
            TyKind::FnPtr(..) => "fnptr",
            TyKind::Dynamic(..) => "dyn",
            TyKind::Closure(..) => "closure",
            TyKind::Never => "never",
            TyKind::Tuple(_) => "tuple",
            TyKind::Param(_) => "param",
            TyKind::Alias(..) => "alias",
            _ => "other",
        };
        o.set("kind", J::s(kind));
        if let Some((s, a, u)) = self.layout_sa(ty, env) {
            if !u {
                o.set("size", J::Int(s as i128));
            }
            o.set("align", J::Int(a as i128));
            o.set("unsized", J::Bool(u));
        }
        match ty.kind() {
            TyKind::Int(i) => {
                o.set("bits", J::Int(i.bit_width().unwrap_or(64) as i128));
            }
            TyKind::Uint(i) => {
                o.set("bits", J::Int(i.bit_width().unwrap_or(64) as i128));
            }
            TyKind::RawPtr(p, m) => {
                let pj = self.ty(*p, env);
                o.set("pointee", pj);
                o.set("mut", J::Bool(m.is_mut()));
            }
            TyKind::Ref(_, p, m) => {
                let pj = self.ty(*p, env);
                o.set("pointee", pj);
                o.set("mut", J::Bool(m.is_mut()));
            }
            TyKind::Slice(e) => {
                let ej = self.ty(*e, env);
                o.set("elem", ej);
            }
            TyKind::Array(e, n) => {
                let ej = self.ty(*e, env);
                o.set("elem", ej);
                o.set("len", J::opt_i(n.try_to_target_usize(tcx).map(|v| v as i128)));
            }
            TyKind::Tuple(fs) => {
                let mut a = vec![];
                for f in fs.iter() {
                    a.push(self.ty(f, env));
                }
                o.set("fields", J::Arr(a));
            }
            TyKind::Adt(adt, args) => {
                o.set("adt", J::s(with_no_trimmed_paths!(tcx.def_path_str(adt.did()))));
                o.set("adt_crate", J::s(self.crate_of(adt.did())));
                o.set("adt_name", J::s(tcx.item_name(adt.did()).to_string()));
                let mut a = vec![];
                for g in args.iter() {
                    if let Some(t) = g.as_type() {
                        a.push(self.ty(t, env));
                    }
                }
                o.set("args", J::Arr(a));
                if ty.is_box() {
                    o.set("box", J::Bool(true));
                    if let Some(inner) = ty.boxed_ty() {
                        let pj = self.ty(inner, env);
                        o.set("pointee", pj);
                    }
                }
                let c = self.crate_of(adt.did());
                if (REPO_CRATES.contains(&c.as_str()) || c == "uefi_raw")
                    && !ty.has_non_region_param()
                    && self.adt_seen.insert(ty)
                {
                    self.adt_queue.push(ty);
                }
            }
            TyKind::Closure(def, _) => {
                o.set("def", J::s(with_no_trimmed_paths!(tcx.def_path_str(*def))));
            }
            TyKind::FnDef(def, _) => {
                o.set("def", J::s(with_no_trimmed_paths!(tcx.def_path_str(*def))));
            }
            _ => {}
        }
        o
    }

    fn drain_adts(&mut self) {
        while let Some(ty) = self.adt_queue.pop() {
            let j = self.adt_info(ty);
            self.adts.insert(ts(ty), j);
        }
    }

    fn scalar_str(s: &Scalar) -> String {
        Self::prim_str(&s.primitive())
    }
    fn prim_str(p: &Primitive) -> String {
        match *p {
            Primitive::Int(i, signed) => format!("{}{}", if signed { "i" } else { "u" }, i.size().bits()),
            Primitive::Float(f) => format!("f{}", f.size().bits()),
            Primitive::Pointer(_) => "ptr".to_string(),
        }
    }

    /// Path of field names from `ty` down to the leaf that covers byte `off`.
    fn niche_path(&mut self, ty: Ty<'tcx>, off: u64, depth: usize) -> Vec<String> {
        let tcx = self.tcx;
        let env = TypingEnv::fully_monomorphized();
        if depth > 8 {
            return vec![];
        }
        let Ok(layout) = tcx.layout_of(env.as_query_input(ty)) else { return vec![] };
        match ty.kind() {
            TyKind::Adt(adt, args) if adt.is_struct() => {
                let v = adt.non_enum_variant();
                for (i, f) in v.fields.iter().enumerate() {
                    let fty = tcx.normalize_erasing_regions(env, Unnormalized::new_wip(f.ty(tcx, args)));
                    let foff = layout.fields.offset(i).bytes();
                    let Ok(fl) = tcx.layout_of(env.as_query_input(fty)) else { continue };
                    let fsz = if fl.is_unsized() { u64::MAX / 2 } else { fl.size.bytes() };
                    if off >= foff && off < foff.saturating_add(fsz) && fsz > 0 {
                        let mut p = vec![format!("{}: {}", f.name, ts(fty))];
                        p.extend(self.niche_path(fty, off - foff, depth + 1));
                        return p;
                    }
                }
                vec![]
            }
            TyKind::Tuple(fs) => {
                for (i, fty) in fs.iter().enumerate() {
                    let foff = layout.fields.offset(i).bytes();
                    let Ok(fl) = tcx.layout_of(env.as_query_input(fty)) else { continue };
                    let fsz = fl.size.bytes();
                    if off >= foff && off < foff + fsz {
                        let mut p = vec![format!("{}: {}", i, ts(fty))];
                        p.extend(self.niche_path(fty, off - foff, depth + 1));
                        return p;
                    }
                }
                vec![]
            }
            TyKind::Array(e, _) | TyKind::Slice(e) => {
                let Ok(el) = tcx.layout_of(env.as_query_input(*e)) else { return vec![] };
                let es = el.size.bytes().max(1);
                let mut p = vec![format!("[{}]", off / es)];
                p.extend(self.niche_path(*e, off % es, depth + 1));
                p
            }
            _ => vec![],
        }
    }

    fn adt_info(&mut self, ty: Ty<'tcx>) -> J {
        let tcx = self.tcx;
        let env = TypingEnv::fully_monomorphized();
        let TyKind::Adt(adt, args) = ty.kind() else { return J::Null };
        let mut o = J::obj();
        o.set("path", J::s(with_no_trimmed_paths!(tcx.def_path_str(adt.did()))));
        o.set("crate", J::s(self.crate_of(adt.did())));
        o.set("name", J::s(tcx.item_name(adt.did()).to_string()));
        o.set(
            "kind",
            J::s(if adt.is_struct() {
                "struct"
            } else if adt.is_enum() {
                "enum"
            } else {
                "union"
            }),
        );
        let repr = adt.repr();
        let mut rs = vec![];
        if repr.c() {
            rs.push(J::s("C"));
        }
        if repr.transparent() {
            rs.push(J::s("transparent"));
        }
        if repr.packed() {
            rs.push(J::s(format!("packed({})", repr.pack.map(|a| a.bytes()).unwrap_or(1))));
        }
        if let Some(a) = repr.align {
            rs.push(J::s(format!("align({})", a.bytes())));
        }
        if let Some(i) = repr.int {
            rs.push(J::s(format!("int({:?})", i)));
        }
        o.set("repr", J::Arr(rs));
        if let Some(ldid) = adt.did().as_local() {
            o.set("span", J::s(self.span_str(tcx.def_span(ldid))));
            let ev = tcx.effective_visibilities(());
            o.set("eff_pub", J::Bool(ev.is_reachable(ldid)));
        }
        o.set("vis_pub", J::Bool(tcx.visibility(adt.did()).is_public()));
        let layout = match tcx.layout_of(env.as_query_input(ty)) {
            Ok(l) => l,
            Err(_) => {
                o.set("layout_error", J::Bool(true));
                return o;
            }
        };
        o.set("unsized", J::Bool(layout.is_unsized()));
        o.set("size", if layout.is_unsized() { J::Null } else { J::Int(layout.size.bytes() as i128) });
        // for unsized: the sized prefix size is the tail offset
        o.set("align", J::Int(layout.align.abi.bytes() as i128));
        o.set("freeze", J::Bool(ty.is_freeze(tcx, env)));
        if let Some(n) = layout.largest_niche {
            let mut nj = J::obj();
            nj.set("off", J::Int(n.offset.bytes() as i128));
            nj.set("scalar", J::s(Self::prim_str(&n.value)));
            nj.set("lo", J::Int(n.valid_range.start as i128));
            nj.set("hi", J::Int(n.valid_range.end as i128));
            let path = self.niche_path(ty, n.offset.bytes(), 0);
            nj.set("path", J::Arr(path.into_iter().map(J::Str).collect()));
            o.set("niche", nj);
        } else {
            o.set("niche", J::Null);
        }
        if adt.is_struct() || adt.is_union() {
            let v = adt.non_enum_variant();
            let mut fs = vec![];
            let nf = v.fields.len();
            for (i, f) in v.fields.iter().enumerate() {
                let fty = tcx.normalize_erasing_regions(env, Unnormalized::new_wip(f.ty(tcx, args)));
                let mut fj = J::obj();
                fj.set("i", J::Int(i as i128));
                fj.set("name", J::s(f.name.to_string()));
                let tj = self.ty(fty, env);
                fj.set("ty", tj);
                if let FieldsShape::Arbitrary { .. } = layout.fields {
                    fj.set("off", J::Int(layout.fields.offset(i).bytes() as i128));
                } else if nf > 0 {
                    fj.set("off", J::Int(layout.fields.offset(i).bytes() as i128));
                }
                if let Some((s, a, u)) = self.layout_sa(fty, env) {
                    fj.set("size", if u { J::Null } else { J::Int(s as i128) });
                    fj.set("align", J::Int(a as i128));
                    if u {
                        // tail
                        let mut tj = J::obj();
                        tj.set("field", J::s(f.name.to_string()));
                        tj.set("off", J::Int(layout.fields.offset(i).bytes() as i128));
                        match fty.kind() {
                            TyKind::Slice(e) => {
                                let ej = self.ty(*e, env);
                                tj.set("elem", ej);
                                if let Some((es, ea, _)) = self.layout_sa(*e, env) {
                                    tj.set("elem_size", J::Int(es as i128));
                                    tj.set("elem_align", J::Int(ea as i128));
                                }
                            }
                            TyKind::Str => {
                                tj.set("elem", J::s("u8"));
                                tj.set("elem_size", J::Int(1));
                                tj.set("elem_align", J::Int(1));
                            }
                            _ => {}
                        }
                        o.set("tail", tj);
                    }
                }
                fj.set("pub", J::Bool(f.vis.is_public()));
                fs.push(fj);
            }
            o.set("fields", J::Arr(fs));
        } else {
            // enum
            let mut vs = vec![];
            for (vi, d) in adt.discriminants(tcx) {
                let v = adt.variant(vi);
                let mut vj = J::obj();
                vj.set("name", J::s(v.name.to_string()));
                vj.set("idx", J::Int(vi.as_u32() as i128));
                vj.set("discr", J::Int(d.val as i128));
                let mut fs = vec![];
                for f in v.fields.iter() {
                    let fty = tcx.normalize_erasing_regions(env, Unnormalized::new_wip(f.ty(tcx, args)));
                    fs.push(self.ty(fty, env));
                }
                vj.set("fields", J::Arr(fs));
                vs.push(vj);
            }
            o.set("variants", J::Arr(vs));
            match &layout.variants {
                Variants::Multiple { tag, tag_encoding, tag_field, .. } => {
                    let mut tj = J::obj();
                    tj.set("scalar", J::s(Self::scalar_str(tag)));
                    tj.set("field", J::Int(tag_field.as_u32() as i128));
                    tj.set("off", J::Int(layout.fields.offset(tag_field.as_usize()).bytes() as i128));
                    tj.set("encoding", J::s(format!("{:?}", tag_encoding)));
                    o.set("tag", tj);
                }
                _ => {}
            }
            o.set("discr_ty", J::s(format!("{}", adt.repr().discr_type().to_ty(tcx))));
        }
        o
    }

    // ------------------------------------------------------------------ keys
    fn def_meta(&mut self, def: DefId) -> J {
        let tcx = self.tcx;
        let mut o = J::obj();
        o.set("path", J::s(with_no_trimmed_paths!(tcx.def_path_str(def))));
        o.set("crate", J::s(self.crate_of(def)));
        o.set("name", J::opt_s(tcx.opt_item_name(def).map(|s| s.to_string())));
        let kind = tcx.def_kind(def);
        o.set("def_kind", J::s(format!("{:?}", kind)));
        // names of the type parameters in the order of the instance's generic arguments (parents first)
        {
            let mut names: Vec<J> = vec![];
            let mut chain = vec![];
            let mut cur = Some(def);
            while let Some(d) = cur {
                let g = tcx.generics_of(d);
                chain.push(g);
                cur = g.parent;
            }
            for g in chain.iter().rev() {
                for p in g.own_params.iter() {
                    if matches!(p.kind, ty::GenericParamDefKind::Type { .. } | ty::GenericParamDefKind::Const { .. }) {
                        names.push(J::s(p.name.to_string()));
                    }
                }
            }
            o.set("gparams", J::Arr(names));
        }
        let is_closure = tcx.is_closure_like(def);
        o.set("closure", J::Bool(is_closure));
        let root = tcx.typeck_root_def_id(def);
        if root != def {
            o.set("root", J::s(with_no_trimmed_paths!(tcx.def_path_str(root))));
        }
        // impl / trait container of the typeck root
        if matches!(tcx.def_kind(root), DefKind::AssocFn) {
            let parent = tcx.parent(root);
            match tcx.def_kind(parent) {
                DefKind::Impl { of_trait } => {
                    let self_ty = tcx.type_of(parent).instantiate_identity().skip_normalization();
                    o.set("impl_self", J::s(ts(self_ty)));
                    if let TyKind::Adt(a, _) = self_ty.kind() {
                        o.set("impl_self_name", J::s(tcx.item_name(a.did()).to_string()));
                        o.set("impl_self_path", J::s(with_no_trimmed_paths!(tcx.def_path_str(a.did()))));
                    }
                    if of_trait {
                        let tr = tcx.impl_trait_ref(parent).instantiate_identity().skip_normalization();
                        o.set("impl_trait", J::s(with_no_trimmed_paths!(tcx.def_path_str(tr.def_id))));
                        o.set("impl_trait_ref", J::s(with_no_trimmed_paths!(format!("{}", tr.print_only_trait_path()))));
                    }
                    o.set("impl_generic", J::Bool(tcx.generics_of(parent).own_requires_monomorphization()));
                    o.set("derived", J::Bool(tcx.is_automatically_derived(parent)));
                }
                DefKind::Trait => {
                    o.set("trait_default", J::s(with_no_trimmed_paths!(tcx.def_path_str(parent))));
                }
                _ => {}
            }
        }
        if matches!(kind, DefKind::Fn | DefKind::AssocFn) {
            let sig = tcx.fn_sig(def).instantiate_identity().skip_normalization();
            o.set("unsafe", J::Bool(sig.safety().is_unsafe()));
            o.set("const", J::Bool(tcx.is_const_fn(def)));
            o.set("vis_pub", J::Bool(tcx.visibility(def).is_public()));
            o.set("generic", J::Bool(tcx.generics_of(def).requires_monomorphization(tcx)));
            if let Some(l) = def.as_local() {
                let ev = tcx.effective_visibilities(());
                o.set("eff_pub", J::Bool(ev.is_reachable(l)));
            }
            // attributes of interest
            o.set("deprecated", J::Bool(tcx.lookup_deprecation(def).is_some()));
        }
        if let Some(l) = def.as_local() {
            o.set("span", J::s(self.span_str(tcx.def_span(l))));
        }
        o
    }

    fn inst_key(&self, inst: Instance<'tcx>) -> String {
        let tcx = self.tcx;
        with_no_trimmed_paths!(match inst.def {
            InstanceKind::Item(def) => self.item_key(def, inst.args),
            InstanceKind::Intrinsic(def) => format!("intrinsic {}", self.item_key(def, inst.args)),
            InstanceKind::Virtual(def, _) => format!("virtual {}", self.item_key(def, inst.args)),
            _ => {
                let _ = tcx;
                format!("shim {}", inst)
            }
        })
    }

    fn item_key(&self, def: DefId, args: GenericArgsRef<'tcx>) -> String {
        let tcx = self.tcx;
        if tcx.is_closure_like(def) {
            let root = tcx.typeck_root_def_id(def);
            let root_generics = tcx.generics_of(root);
            let n = root_generics.count();
            let root_args = tcx.mk_args(&args[..n.min(args.len())]);
            let root_key = self.item_key(root, root_args);
            let full = tcx.def_path_str(def);
            let rootp = tcx.def_path_str(root);
            let suffix = full.strip_prefix(&rootp).unwrap_or(&full).to_string();
            format!("{}{}", root_key, suffix)
        } else {
            tcx.def_path_str_with_args(def, args)
        }
    }

    // ------------------------------------------------------------------ MIR
    fn place(&mut self, p: &Place<'tcx>, body: &Body<'tcx>, env: TypingEnv<'tcx>) -> J {
        let tcx = self.tcx;
        let mut projs = vec![];
        let mut pty = mir::PlaceTy::from_ty(body.local_decls[p.local].ty);
        for elem in p.projection.iter() {
            let j = match elem {
                ProjectionElem::Deref => J::s("*"),
                ProjectionElem::Field(f, fty) => {
                    let mut o = J::obj();
                    o.set("f", J::Int(f.as_u32() as i128));
                    // field name if ADT
                    let cur = pty.ty;
                    if let TyKind::Adt(adt, _) = cur.kind() {
                        let v = match pty.variant_index {
                            Some(vi) => Some(adt.variant(vi)),
                            None if !adt.is_enum() => Some(adt.non_enum_variant()),
                            None => None,
                        };
                        if let Some(v) = v {
                            if let Some(fd) = v.fields.get(f) {
                                o.set("n", J::s(fd.name.to_string()));
                            }
                        }
                    }
                    let tj = self.ty(fty, env);
                    o.set("ty", tj);
                    o
                }
                ProjectionElem::Index(l) => J::obj().with("idx", J::Int(l.as_u32() as i128)),
                ProjectionElem::ConstantIndex { offset, min_length, from_end } => J::obj().with(
                    "cidx",
                    J::Arr(vec![J::Int(offset as i128), J::Int(min_length as i128), J::Bool(from_end)]),
                ),
                ProjectionElem::Subslice { from, to, from_end } => J::obj().with(
                    "sub",
                    J::Arr(vec![J::Int(from as i128), J::Int(to as i128), J::Bool(from_end)]),
                ),
                ProjectionElem::Downcast(name, vi) => {
                    let mut o = J::obj();
                    o.set("dc", J::Int(vi.as_u32() as i128));
                    o.set("n", J::opt_s(name.map(|s| s.to_string())));
                    o
                }
                ProjectionElem::OpaqueCast(_) => J::s("opaque"),
                ProjectionElem::UnwrapUnsafeBinder(_) => J::s("unwrap_binder"),
            };
            projs.push(j);
            pty = pty.projection_ty(tcx, elem);
        }
        let mut o = J::obj();
        o.set("l", J::Int(p.local.as_u32() as i128));
        if !projs.is_empty() {
            o.set("p", J::Arr(projs));
        }
        o
    }

    fn fn_ref(&mut self, def: DefId, args: GenericArgsRef<'tcx>, env: TypingEnv<'tcx>, mono: bool) -> J {
        let tcx = self.tcx;
        let mut o = J::obj();
        o.set("path", J::s(with_no_trimmed_paths!(tcx.def_path_str(def))));
        o.set("crate", J::s(self.crate_of(def)));
        o.set("name", J::opt_s(tcx.opt_item_name(def).map(|s| s.to_string())));
        o.set("pretty", J::s(with_no_trimmed_paths!(self.item_key(def, args))));
        let mut ga = vec![];
        for g in args.iter() {
            if let Some(t) = g.as_type() {
                ga.push(self.ty(t, env));
            } else if let Some(c) = g.as_const() {
                ga.push(J::s(format!("{}", c)));
            }
        }
        o.set("gargs", J::Arr(ga));
        if matches!(tcx.def_kind(def), DefKind::Fn | DefKind::AssocFn) {
            let sig = tcx.fn_sig(def).instantiate_identity().skip_normalization();
            o.set("unsafe", J::Bool(sig.safety().is_unsafe()));
            // trait method?
            if let Some(tr) = tcx.trait_of_assoc(def) {
                o.set("trait", J::s(with_no_trimmed_paths!(tcx.def_path_str(tr))));
            }
            // return type never => diverges
            let ret = sig.output().skip_binder();
            if ret.is_never() {
                o.set("diverges", J::Bool(true));
            }
        }
        if matches!(tcx.def_kind(def), DefKind::Ctor(..)) {
            o.set("ctor", J::Bool(true));
        }
        // resolution
        let can_resolve = matches!(
            tcx.def_kind(def),
            DefKind::Fn | DefKind::AssocFn | DefKind::Ctor(..) | DefKind::Closure
        );
        if can_resolve {
            let args_ok = mono || !args.has_non_region_param() || true;
            if args_ok {
                match Instance::try_resolve(tcx, env, def, args) {
                    Ok(Some(inst)) => {
                        let mut r = J::obj();
                        r.set("key", J::s(self.inst_key(inst)));
                        let rdef = inst.def_id();
                        r.set("path", J::s(with_no_trimmed_paths!(tcx.def_path_str(rdef))));
                        r.set("crate", J::s(self.crate_of(rdef)));
                        r.set("repo", J::Bool(self.is_repo_def(rdef)));
                        let kind = match inst.def {
                            InstanceKind::Item(_) => "item",
                            InstanceKind::Intrinsic(_) => "intrinsic",
                            InstanceKind::Virtual(..) => "virtual",
                            InstanceKind::DropGlue(..) => "drop",
                            InstanceKind::CloneShim(..) => "clone_shim",
                            InstanceKind::FnPtrShim(..) => "fnptr_shim",
                            InstanceKind::ClosureOnceShim { .. } => "closure_once_shim",
                            InstanceKind::ReifyShim(..) => "reify_shim",
                            _ => "shim",
                        };
                        r.set("kind", J::s(kind));
                        o.set("res", r);
                    }
                    _ => {}
                }
            }
        }
        o
    }

    fn konst(&mut self, c: &MirConst<'tcx>, span: Span, env: TypingEnv<'tcx>, mono: bool) -> J {
        let tcx = self.tcx;
        let mut o = J::obj();
        let cty = c.ty();
        let tj = self.ty(cty, env);
        o.set("ty", tj);
        if let TyKind::FnDef(def, args) = cty.kind() {
            let f = self.fn_ref(*def, args, env, mono);
            o.set("fn", f);
            return o;
        }
        let text = with_no_trimmed_paths!(format!("{}", c));
        o.set("s", J::s(text));
        // Evaluate scalars where possible.
        let is_scalarish = cty.is_integral() || cty.is_bool() || cty.is_char();
        if is_scalarish {
            let can_eval = match c {
                MirConst::Val(..) => true,
                MirConst::Ty(..) => !c.has_non_region_param(),
                MirConst::Unevaluated(u, _) => !u.args.has_non_region_param(),
            };
            if can_eval {
                if let Some(si) = c.try_eval_scalar_int(tcx, env) {
                    let size = si.size();
                    let bits = si.to_bits(size);
                    let v: i128 = if cty.is_signed() {
                        size.sign_extend(bits) as i128
                    } else {
                        bits as i128
                    };
                    o.set("v", J::Int(v));
                }
            } else if let MirConst::Unevaluated(u, _) = c {
                o.set("uneval", J::s(with_no_trimmed_paths!(tcx.def_path_str(u.def))));
            }
        } else if let (TyKind::Ref(_, inner, _), true) = (cty.kind(), !c.has_non_region_param()) {
            // promoted `&<int>` (assert_eq! operands): read the pointee from the const allocation
            if let TyKind::Array(elem, n) = inner.kind() {
                // small promoted byte/integer arrays such as `&[0]`
                if elem.is_integral() {
                    if let (Some(n), Ok(el)) = (n.try_to_target_usize(tcx), tcx.layout_of(env.as_query_input(*elem))) {
                        let esz = el.size.bytes() as usize;
                        if n <= 32 && esz >= 1 && esz <= 8 {
                            if let Ok(ConstValue::Scalar(rustc_middle::mir::interpret::Scalar::Ptr(ptr, _))) = c.eval(tcx, env, span) {
                                let (prov, off) = ptr.prov_and_relative_offset();
                                if let Some(rustc_middle::mir::interpret::GlobalAlloc::Memory(mem)) = tcx.try_get_global_alloc(prov.alloc_id()) {
                                    let alloc = mem.inner();
                                    let o0 = off.bytes() as usize;
                                    let total = esz * n as usize;
                                    if o0 + total <= alloc.len() {
                                        let bytes = alloc.inspect_with_uninit_and_ptr_outside_interpreter(o0..o0 + total);
                                        let mut vals = vec![];
                                        for i in 0..(n as usize) {
                                            let mut v: u128 = 0;
                                            for j in 0..esz {
                                                v |= (bytes[i * esz + j] as u128) << (8 * j);
                                            }
                                            vals.push(J::Int(v as i128));
                                        }
                                        o.set("deref_array", J::Arr(vals));
                                    }
                                }
                            }
                        }
                    }
                }
            }
            if let TyKind::Array(elem, n) = inner.kind() {
                // promoted / named `&[T; N]` tables of non-integers (lookup tables of enum values): describe the pointee, element by element
                if !elem.is_integral() && n.try_to_target_usize(tcx).map_or(false, |n| n <= 64) {
                    if let Ok(ConstValue::Scalar(rustc_middle::mir::interpret::Scalar::Ptr(ptr, _))) = c.eval(tcx, env, span) {
                        let (prov, off) = ptr.prov_and_relative_offset();
                        if let Some(rustc_middle::mir::interpret::GlobalAlloc::Memory(_)) = tcx.try_get_global_alloc(prov.alloc_id()) {
                            let cv = ConstValue::Indirect { alloc_id: prov.alloc_id(), offset: off };
                            let mut d = J::obj();
                            self.describe_const_value(cv, *inner, &mut d);
                            o.set("deref_const", d);
                        }
                    }
                }
            }
            if let TyKind::Adt(iadt, _) = inner.kind() {
                if iadt.is_enum() || iadt.is_struct() {
                    if let Ok(ConstValue::Scalar(rustc_middle::mir::interpret::Scalar::Ptr(ptr, _))) = c.eval(tcx, env, span) {
                        let (prov, off) = ptr.prov_and_relative_offset();
                        if let Some(rustc_middle::mir::interpret::GlobalAlloc::Memory(_)) = tcx.try_get_global_alloc(prov.alloc_id()) {
                            let cv = ConstValue::Indirect { alloc_id: prov.alloc_id(), offset: off };
                            let mut d = J::obj();
                            self.describe_const_value(cv, *inner, &mut d);
                            o.set("deref_const", d);
                        }
                    }
                }
            }
            if inner.is_integral() || inner.is_bool() {
                if let Ok(ConstValue::Scalar(rustc_middle::mir::interpret::Scalar::Ptr(ptr, _))) = c.eval(tcx, env, span) {
                    let (prov, off) = ptr.prov_and_relative_offset();
                    if let Some(rustc_middle::mir::interpret::GlobalAlloc::Memory(mem)) = tcx.try_get_global_alloc(prov.alloc_id()) {
                        if let Ok(l) = tcx.layout_of(env.as_query_input(*inner)) {
                            let sz = l.size.bytes() as usize;
                            let o0 = off.bytes() as usize;
                            let alloc = mem.inner();
                            if o0 + sz <= alloc.len() && sz <= 16 {
                                let bytes = alloc.inspect_with_uninit_and_ptr_outside_interpreter(o0..o0 + sz);
                                let mut v: u128 = 0;
                                for (i, b) in bytes.iter().enumerate() {
                                    v |= (*b as u128) << (8 * i);
                                }
                                let vi: i128 = if inner.is_signed() { l.size.sign_extend(v) as i128 } else { v as i128 };
                                o.set("deref_v", J::Int(vi));
                            }
                        }
                    }
                }
            }
            if let MirConst::Unevaluated(u, _) = c {
                o.set("uneval", J::s(with_no_trimmed_paths!(tcx.def_path_str(u.def))));
            }
        } else if let MirConst::Unevaluated(u, _) = c {
            o.set("uneval", J::s(with_no_trimmed_paths!(tcx.def_path_str(u.def))));
            // enum-typed assoc consts: evaluate + destructure
            if !u.args.has_non_region_param() {
                if let Ok(val) = c.eval(tcx, env, span) {
                    self.describe_const_value(val, cty, &mut o);
                }
            }
        } else if let MirConst::Val(val, _) = c {
            self.describe_const_value(*val, cty, &mut o);
        }
        o
    }

    fn describe_const_value(&mut self, val: ConstValue, ty: Ty<'tcx>, o: &mut J) {
        let tcx = self.tcx;
        // rustc's const pretty-printer unwraps the length of a `[u8; N]` whose N is still an unevaluated path
        // (e.g. `const P: [u8; ALIGNMENT]`): normalize first, and do not print if the length stays symbolic
        let ty = tcx
            .try_normalize_erasing_regions(TypingEnv::fully_monomorphized(), Unnormalized::new_wip(ty))
            .unwrap_or(ty);
        let printable = match ty.kind() {
            TyKind::Array(_, n) => n.try_to_target_usize(tcx).is_some(),
            _ => true,
        };
        let text = if printable { with_no_trimmed_paths!(format!("{}", MirConst::Val(val, ty))) } else { format!("<const {}>", with_no_trimmed_paths!(ty.to_string())) };
        o.set("val_s", J::s(text));
        if let TyKind::Adt(adt, _) = ty.kind() {
            if adt.is_enum() || adt.is_struct() {
                if let Some(d) = tcx.try_destructure_mir_constant_for_user_output(val, ty) {
                    if let Some(vi) = d.variant {
                        let v = adt.variant(vi);
                        o.set("variant", J::s(v.name.to_string()));
                        o.set("variant_idx", J::Int(vi.as_u32() as i128));
                    }
                    let mut fs = vec![];
                    for (fv, fty) in d.fields.iter() {
                        let mut fj = J::obj();
                        fj.set("ty", J::s(ts(*fty)));
                        if let Some(si) = fv.try_to_scalar_int() {
                            fj.set("v", J::Int(si.to_bits(si.size()) as i128));
                        } else if let (ConstValue::Scalar(rustc_middle::mir::interpret::Scalar::Ptr(ptr, _)), TyKind::Ref(_, inner, _)) = (*fv, fty.kind()) {
                            // a field that is a reference to an integer (e.g. `Some(&0u8)`): record the pointee
                            if inner.is_integral() || inner.is_bool() {
                                let (prov, off) = ptr.prov_and_relative_offset();
                                if let Some(rustc_middle::mir::interpret::GlobalAlloc::Memory(mem)) = tcx.try_get_global_alloc(prov.alloc_id()) {
                                    if let Ok(l) = tcx.layout_of(TypingEnv::fully_monomorphized().as_query_input(*inner)) {
                                        let sz = l.size.bytes() as usize;
                                        let o0 = off.bytes() as usize;
                                        let alloc = mem.inner();
                                        if o0 + sz <= alloc.len() && sz <= 16 {
                                            let bytes = alloc.inspect_with_uninit_and_ptr_outside_interpreter(o0..o0 + sz);
                                            let mut v: u128 = 0;
                                            for (i, b) in bytes.iter().enumerate() {
                                                v |= (*b as u128) << (8 * i);
                                            }
                                            fj.set("pv", J::Int(v as i128));
                                        }
                                    }
                                }
                            }
                        }
                        fs.push(fj);
                    }
                    o.set("fields", J::Arr(fs));
                }
            }
        }
        if let TyKind::Array(elem, n) = ty.kind() {
            if n.try_to_target_usize(tcx).map_or(false, |n| n <= 64) {
                if let Some(d) = tcx.try_destructure_mir_constant_for_user_output(val, ty) {
                    let mut es = vec![];
                    for (fv, _fty) in d.fields.iter() {
                        let mut ej = J::obj();
                        match fv.try_to_scalar_int() {
                            Some(si) if elem.is_integral() || elem.is_bool() => {
                                let size = si.size();
                                let bits = si.to_bits(size);
                                let v: i128 = if elem.is_signed() { size.sign_extend(bits) as i128 } else { bits as i128 };
                                ej.set("v", J::Int(v));
                            }
                            _ => self.describe_const_value(*fv, *elem, &mut ej),
                        }
                        es.push(ej);
                    }
                    o.set("elems", J::Arr(es));
                }
            }
        }
        if let TyKind::Ref(_, inner, _) = ty.kind() {
            if inner.is_str() {
                o.set("str", J::Bool(true));
            }
        }
    }

    fn operand(&mut self, op: &Operand<'tcx>, body: &Body<'tcx>, env: TypingEnv<'tcx>, mono: bool) -> J {
        match op {
            Operand::Copy(p) => J::obj().with("c", self.place(p, body, env)),
            Operand::Move(p) => J::obj().with("m", self.place(p, body, env)),
            Operand::Constant(c) => J::obj().with("k", self.konst(&c.const_, c.span, env, mono)),
            Operand::RuntimeChecks(rc) => J::obj().with("rtc", J::s(format!("{:?}", rc))),
        }
    }

    fn rvalue(&mut self, rv: &Rvalue<'tcx>, body: &Body<'tcx>, env: TypingEnv<'tcx>, mono: bool) -> J {
        let tcx = self.tcx;
        let mut o = J::obj();
        match rv {
            Rvalue::Use(op, _) => {
                o.set("k", J::s("use"));
                o.set("op", self.operand(op, body, env, mono));
            }
            Rvalue::Repeat(op, n) => {
                o.set("k", J::s("repeat"));
                o.set("op", self.operand(op, body, env, mono));
                o.set("n", J::opt_i(n.try_to_target_usize(tcx).map(|v| v as i128)));
            }
            Rvalue::Ref(_, bk, p) => {
                o.set("k", J::s("ref"));
                o.set(
                    "bk",
                    J::s(match bk {
                        BorrowKind::Shared => "shared",
                        BorrowKind::Fake(_) => "fake",
                        BorrowKind::Mut { .. } => "mut",
                    }),
                );
                o.set("pl", self.place(p, body, env));
            }
            Rvalue::ThreadLocalRef(_) => {
                o.set("k", J::s("tlref"));
            }
            Rvalue::RawPtr(k, p) => {
                o.set("k", J::s("rawptr"));
                o.set("bk", J::s(format!("{:?}", k)));
                o.set("pl", self.place(p, body, env));
            }
            Rvalue::Cast(ck, op, ty) => {
                o.set("k", J::s("cast"));
                let cks = match ck {
                    CastKind::PointerCoercion(pc, _) => format!("PointerCoercion({:?})", pc),
                    other => format!("{:?}", other),
                };
                o.set("ck", J::s(cks));
                o.set("op", self.operand(op, body, env, mono));
                let tj = self.ty(*ty, env);
                o.set("ty", tj);
                let from = op.ty(body, tcx);
                let fj = self.ty(from, env);
                o.set("from", fj);
            }
            Rvalue::BinaryOp(bop, ab) => {
                o.set("k", J::s("bin"));
                o.set("op", J::s(format!("{:?}", bop)));
                o.set("a", self.operand(&ab.0, body, env, mono));
                o.set("b", self.operand(&ab.1, body, env, mono));
                let aty = ab.0.ty(body, tcx);
                let tj = self.ty(aty, env);
                o.set("aty", tj);
            }
            Rvalue::UnaryOp(uop, a) => {
                o.set("k", J::s("un"));
                o.set("op", J::s(format!("{:?}", uop)));
                o.set("a", self.operand(a, body, env, mono));
            }
            Rvalue::Discriminant(p) => {
                o.set("k", J::s("discr"));
                o.set("pl", self.place(p, body, env));
                let pty = p.ty(body, tcx).ty;
                let tj = self.ty(pty, env);
                o.set("of", tj);
            }
            Rvalue::Aggregate(ak, ops) => {
                o.set("k", J::s("aggr"));
                match &**ak {
                    AggregateKind::Array(t) => {
                        o.set("ak", J::s("array"));
                        let tj = self.ty(*t, env);
                        o.set("elem", tj);
                    }
                    AggregateKind::Tuple => {
                        o.set("ak", J::s("tuple"));
                    }
                    AggregateKind::Adt(did, vi, args, _, active) => {
                        o.set("ak", J::s("adt"));
                        let adt = tcx.adt_def(*did);
                        o.set("adt", J::s(with_no_trimmed_paths!(tcx.def_path_str(*did))));
                        o.set("adt_name", J::s(tcx.item_name(*did).to_string()));
                        o.set("adt_crate", J::s(self.crate_of(*did)));
                        let v = adt.variant(*vi);
                        o.set("variant", J::s(v.name.to_string()));
                        o.set("variant_idx", J::Int(vi.as_u32() as i128));
                        o.set(
                            "fields",
                            J::Arr(v.fields.iter().map(|f| J::s(f.name.to_string())).collect()),
                        );
                        if let Some(a) = active {
                            o.set("active", J::Int(a.as_u32() as i128));
                        }
                        let aty = Ty::new_adt(tcx, adt, args);
                        let tj = self.ty(aty, env);
                        o.set("ty", tj);
                    }
                    AggregateKind::Closure(did, _) => {
                        o.set("ak", J::s("closure"));
                        o.set("def", J::s(with_no_trimmed_paths!(tcx.def_path_str(*did))));
                    }
                    AggregateKind::RawPtr(t, m) => {
                        o.set("ak", J::s("rawptr"));
                        let tj = self.ty(*t, env);
                        o.set("pointee", tj);
                        o.set("mut", J::Bool(m.is_mut()));
                    }
                    _ => {
                        o.set("ak", J::s("other"));
                    }
                }
                let mut a = vec![];
                for op in ops.iter() {
                    a.push(self.operand(op, body, env, mono));
                }
                o.set("ops", J::Arr(a));
            }
            Rvalue::CopyForDeref(p) => {
                o.set("k", J::s("use"));
                o.set("op", J::obj().with("c", self.place(p, body, env)));
                o.set("deref_tmp", J::Bool(true));
            }
            Rvalue::WrapUnsafeBinder(op, _) => {
                o.set("k", J::s("use"));
                o.set("op", self.operand(op, body, env, mono));
            }
        }
        o
    }

    fn unwind(u: &UnwindAction) -> J {
        match u {
            UnwindAction::Continue => J::s("continue"),
            UnwindAction::Unreachable => J::s("unreachable"),
            UnwindAction::Terminate(_) => J::s("terminate"),
            UnwindAction::Cleanup(b) => J::Int(b.as_u32() as i128),
        }
    }

    fn block(&mut self, bb: &BasicBlockData<'tcx>, body: &Body<'tcx>, env: TypingEnv<'tcx>, mono: bool) -> J {
        let tcx = self.tcx;
        let mut stmts = vec![];
        for st in bb.statements.iter() {
            let mut o = J::obj();
            match &st.kind {
                StatementKind::Assign(b) => {
                    let (pl, rv) = &**b;
                    o.set("k", J::s("assign"));
                    o.set("lhs", self.place(pl, body, env));
                    o.set("rv", self.rvalue(rv, body, env, mono));
                }
                StatementKind::SetDiscriminant { place, variant_index } => {
                    o.set("k", J::s("setdiscr"));
                    o.set("lhs", self.place(place, body, env));
                    o.set("variant_idx", J::Int(variant_index.as_u32() as i128));
                }
                StatementKind::Intrinsic(i) => match &**i {
                    NonDivergingIntrinsic::Assume(op) => {
                        o.set("k", J::s("assume"));
                        o.set("op", self.operand(op, body, env, mono));
                    }
                    NonDivergingIntrinsic::CopyNonOverlapping(c) => {
                        o.set("k", J::s("copy_nonoverlapping"));
                        o.set("src", self.operand(&c.src, body, env, mono));
                        o.set("dst", self.operand(&c.dst, body, env, mono));
                        o.set("count", self.operand(&c.count, body, env, mono));
                    }
                },
                _ => continue,
            }
            o.set("span", J::s(self.span_str(st.source_info.span)));
            if st.source_info.span.from_expansion() {
                o.set("exp", J::Bool(true));
            }
            stmts.push(o);
        }
        let term = bb.terminator();
        let mut t = J::obj();
        match &term.kind {
            TerminatorKind::Goto { target } => {
                t.set("k", J::s("goto"));
                t.set("t", J::Int(target.as_u32() as i128));
            }
            TerminatorKind::SwitchInt { discr, targets } => {
                t.set("k", J::s("switch"));
                t.set("d", self.operand(discr, body, env, mono));
                let dty = discr.ty(body, tcx);
                let tj = self.ty(dty, env);
                t.set("dty", tj);
                let mut vals = vec![];
                let mut ts_ = vec![];
                for (v, b) in targets.iter() {
                    vals.push(J::Int(v as i128));
                    ts_.push(J::Int(b.as_u32() as i128));
                }
                t.set("vals", J::Arr(vals));
                t.set("ts", J::Arr(ts_));
                t.set("otherwise", J::Int(targets.otherwise().as_u32() as i128));
            }
            TerminatorKind::UnwindResume => {
                t.set("k", J::s("resume"));
            }
            TerminatorKind::UnwindTerminate(_) => {
                t.set("k", J::s("terminate"));
            }
            TerminatorKind::Return => {
                t.set("k", J::s("return"));
            }
            TerminatorKind::Unreachable => {
                t.set("k", J::s("unreachable"));
            }
            TerminatorKind::Drop { place, target, unwind, .. } => {
                t.set("k", J::s("drop"));
                t.set("pl", self.place(place, body, env));
                let pty = place.ty(body, tcx).ty;
                let tj = self.ty(pty, env);
                t.set("ty", tj);
                t.set("t", J::Int(target.as_u32() as i128));
                t.set("unwind", Self::unwind(unwind));
            }
            TerminatorKind::Call { func, args, destination, target, unwind, fn_span, .. } => {
                t.set("k", J::s("call"));
                t.set("f", self.operand(func, body, env, mono));
                let mut a = vec![];
                for arg in args.iter() {
                    a.push(self.operand(&arg.node, body, env, mono));
                }
                t.set("args", J::Arr(a));
                if !matches!(func, Operand::Constant(_)) {
                    // callee held in a local of zero-sized fn-item type (shims): still statically known
                    if let TyKind::FnDef(def, fargs) = func.ty(body, self.tcx).kind() {
                        let f = self.fn_ref(*def, fargs, env, mono);
                        t.set("fdef", f);
                    }
                }
                t.set("dest", self.place(destination, body, env));
                t.set("t", J::opt_i(target.map(|b| b.as_u32() as i128)));
                t.set("unwind", Self::unwind(unwind));
                t.set("fn_span", J::s(self.span_str(*fn_span)));
            }
            TerminatorKind::TailCall { func, args, .. } => {
                t.set("k", J::s("tailcall"));
                t.set("f", self.operand(func, body, env, mono));
                let mut a = vec![];
                for arg in args.iter() {
                    a.push(self.operand(&arg.node, body, env, mono));
                }
                t.set("args", J::Arr(a));
            }
            TerminatorKind::Assert { cond, expected, msg, target, unwind } => {
                t.set("k", J::s("assert"));
                t.set("cond", self.operand(cond, body, env, mono));
                t.set("expected", J::Bool(*expected));
                let (mk, ops): (String, Vec<&Operand<'tcx>>) = match &**msg {
                    mir::AssertKind::BoundsCheck { len, index } => ("BoundsCheck".into(), vec![len, index]),
                    mir::AssertKind::Overflow(op, a, b) => (format!("Overflow({:?})", op), vec![a, b]),
                    mir::AssertKind::OverflowNeg(a) => ("OverflowNeg".into(), vec![a]),
                    mir::AssertKind::DivisionByZero(a) => ("DivisionByZero".into(), vec![a]),
                    mir::AssertKind::RemainderByZero(a) => ("RemainderByZero".into(), vec![a]),
                    mir::AssertKind::MisalignedPointerDereference { required, found } => {
                        ("MisalignedPointerDereference".into(), vec![required, found])
                    }
                    mir::AssertKind::NullPointerDereference => ("NullPointerDereference".into(), vec![]),
                    mir::AssertKind::InvalidEnumConstruction(a) => ("InvalidEnumConstruction".into(), vec![a]),
                    _ => ("Other".into(), vec![]),
                };
                t.set("msg", J::s(mk));
                let mut a = vec![];
                for op in ops {
                    a.push(self.operand(op, body, env, mono));
                }
                t.set("ops", J::Arr(a));
                t.set("t", J::Int(target.as_u32() as i128));
                t.set("unwind", Self::unwind(unwind));
            }
            TerminatorKind::FalseEdge { real_target, .. } => {
                t.set("k", J::s("goto"));
                t.set("t", J::Int(real_target.as_u32() as i128));
            }
            TerminatorKind::FalseUnwind { real_target, .. } => {
                t.set("k", J::s("goto"));
                t.set("t", J::Int(real_target.as_u32() as i128));
            }
            TerminatorKind::InlineAsm { .. } => {
                t.set("k", J::s("asm"));
            }
            TerminatorKind::Yield { .. } | TerminatorKind::CoroutineDrop => {
                t.set("k", J::s("coroutine"));
            }
        }
        t.set("span", J::s(self.span_str(term.source_info.span)));
        if term.source_info.span.from_expansion() {
            t.set("exp", J::Bool(true));
            // name of the outermost macro
            let ecx = term.source_info.span.ctxt().outer_expn_data();
            if let rustc_span::ExpnKind::Macro(_, name) = ecx.kind {
                t.set("macro", J::s(name.to_string()));
            }
        }
        let mut b = J::obj();
        b.set("s", J::Arr(stmts));
        b.set("t", t);
        if bb.is_cleanup {
            b.set("cleanup", J::Bool(true));
        }
        b
    }

    fn body(&mut self, body: &Body<'tcx>, env: TypingEnv<'tcx>, mono: bool) -> J {
        let mut o = J::obj();
        o.set("argc", J::Int(body.arg_count as i128));
        if let Some(sp) = body.spread_arg {
            o.set("spread", J::Int(sp.as_u32() as i128));
        }
        let mut names: FxHashMap<mir::Local, String> = FxHashMap::default();
        for vdi in body.var_debug_info.iter() {
            if let mir::VarDebugInfoContents::Place(p) = &vdi.value {
                if p.projection.is_empty() {
                    names.entry(p.local).or_insert(vdi.name.to_string());
                }
            }
        }
        let mut locals = vec![];
        for (l, d) in body.local_decls.iter_enumerated() {
            let mut lj = J::obj();
            let tj = self.ty(d.ty, env);
            lj.set("ty", tj);
            if let Some(n) = names.get(&l) {
                lj.set("n", J::s(n.clone()));
            }
            if d.mutability.is_mut() {
                lj.set("mut", J::Bool(true));
            }
            locals.push(lj);
        }
        o.set("locals", J::Arr(locals));
        let mut blocks = vec![];
        for (_, bb) in body.basic_blocks.iter_enumerated() {
            blocks.push(self.block(bb, body, env, mono));
        }
        o.set("blocks", J::Arr(blocks));
        o
    }
}

fn has_walkable_mir<'tcx>(tcx: TyCtxt<'tcx>, inst: Instance<'tcx>) -> bool {
    match inst.def {
        InstanceKind::Item(def) => {
            if tcx.is_foreign_item(def) {
                return false;
            }
            match tcx.def_kind(def) {
                DefKind::Fn | DefKind::AssocFn | DefKind::Closure | DefKind::Ctor(..) => tcx.is_mir_available(def),
                _ => false,
            }
        }
        InstanceKind::Intrinsic(_) | InstanceKind::Virtual(..) => false,
        InstanceKind::DropGlue(_, None) => false,
        InstanceKind::DropGlue(_, Some(_))
        | InstanceKind::CloneShim(..)
        | InstanceKind::FnPtrShim(..)
        | InstanceKind::ClosureOnceShim { .. }
        | InstanceKind::ReifyShim(..)
        | InstanceKind::VTableShim(..)
        | InstanceKind::FnPtrAddrShim(..) => true,
        _ => false,
    }
}

/// std items whose monomorphic MIR is emitted so that the rule engine can see through them (a superset; the engine
/// keeps its own list of what it actually splices).
fn transparent_std<'tcx>(tcx: TyCtxt<'tcx>, inst: Instance<'tcx>) -> bool {
    match inst.def {
        InstanceKind::ClosureOnceShim { .. } | InstanceKind::FnPtrShim(..) | InstanceKind::ReifyShim(..) => true,
        InstanceKind::Item(def) => {
            let cr = tcx.crate_name(def.krate);
            let cr = cr.as_str();
            if cr != "core" && cr != "alloc" {
                return false;
            }
            let p = with_no_trimmed_paths!(tcx.def_path_str(def));
            const PREFIXES: &[&str] = &[
                "core::option::Option::<T>::",
                "core::result::Result::<T, E>::",
                "core::result::Result::<&T, E>::",
                "core::option::Option::<&T>::",
                "core::option::Option::<&mut T>::",
                "core::bool::<impl bool>::",
                "<core::option::Option<T> as core::ops::try_trait::",
                "<core::result::Result<T, E> as core::ops::try_trait::",
                "<core::result::Result<T, F> as core::ops::try_trait::",
                "<core::ops::control_flow::ControlFlow<B, C> as core::ops::try_trait::",
                "core::cmp::PartialEq::ne",
                "<T as core::convert::Into<U>>::into",
                "<T as core::convert::TryInto<U>>::try_into",
                "<T as core::convert::From<T>>::from",
                "<I as core::iter::traits::collect::IntoIterator>::into_iter",
                "core::iter::traits::iterator::Iterator::by_ref",
                "core::ops::function::impls::",
            ];
            PREFIXES.iter().any(|x| p.starts_with(x))
        }
        _ => false,
    }
}

pub fn emit_crate<'tcx>(tcx: TyCtxt<'tcx>, name: &str, out_dir: &str) {
    let mut cx = Cx {
        tcx,
        tys: FxHashMap::default(),
        adts: FxHashMap::default(),
        adt_queue: vec![],
        adt_seen: FxHashSet::default(),
    };
    let fm = TypingEnv::fully_monomorphized();
    let mut root = J::obj();
    root.set("crate", J::s(name));
    root.set("rustc", J::s(tcx.sess.cfg_version.to_string()));
    {
        let t = &tcx.sess.target;
        let mut tj = J::obj();
        tj.set("triple", J::s(tcx.sess.opts.target_triple.tuple().to_string()));
        tj.set("endian", J::s(format!("{:?}", t.endian)));
        tj.set("ptr_bits", J::Int(t.pointer_width as i128));
        root.set("target", tj);
        let mut cfgs = vec![];
        for (k, v) in tcx.sess.config.iter() {
            if k.as_str() == "feature" {
                if let Some(v) = v {
                    cfgs.push(J::s(v.to_string()));
                }
            }
        }
        cfgs.sort_by(|a, b| format!("{:?}", a).cmp(&format!("{:?}", b)));
        root.set("features", J::Arr(cfgs));
        root.set("debug_assertions", J::Bool(tcx.sess.opts.debug_assertions));
        root.set("overflow_checks", J::Bool(tcx.sess.overflow_checks()));
    }

    // ---------------- local ADTs, consts, impls, fns
    let items = tcx.hir_crate_items(());
    let mut local_fn_defs: Vec<LocalDefId> = vec![];
    let mut consts = J::obj();
    let mut impls = vec![];
    let mut statics = vec![];
    let mir_keys = tcx.mir_keys(());
    for ldid in items.definitions() {
        let def = ldid.to_def_id();
        let kind = tcx.def_kind(def);
        match kind {
            DefKind::Struct | DefKind::Enum | DefKind::Union => {
                let generics = tcx.generics_of(def);
                if !generics.requires_monomorphization(tcx) {
                    let ty = tcx.type_of(def).instantiate_identity().skip_normalization();
                    let ty = tcx.erase_and_anonymize_regions(ty);
                    cx.ty(ty, fm);
                } else {
                    // record generic ADT shape without layout
                    let mut o = J::obj();
                    o.set("path", J::s(with_no_trimmed_paths!(tcx.def_path_str(def))));
                    o.set("name", J::s(tcx.item_name(def).to_string()));
                    o.set("generic", J::Bool(true));
                    let adt = tcx.adt_def(def);
                    let repr = adt.repr();
                    let mut rs = vec![];
                    if repr.c() {
                        rs.push(J::s("C"));
                    }
                    if repr.transparent() {
                        rs.push(J::s("transparent"));
                    }
                    if let Some(a) = repr.align {
                        rs.push(J::s(format!("align({})", a.bytes())));
                    }
                    o.set("repr", J::Arr(rs));
                    if adt.is_struct() {
                        let fs: Vec<J> = adt
                            .non_enum_variant()
                            .fields
                            .iter()
                            .map(|f| {
                                J::obj()
                                    .with("name", J::s(f.name.to_string()))
                                    .with("ty", J::s(ts(tcx.type_of(f.did).instantiate_identity().skip_normalization())))
                                    .with("pub", J::Bool(f.vis.is_public()))
                            })
                            .collect();
                        o.set("fields", J::Arr(fs));
                    }
                    cx.adts.insert(format!("generic {}", with_no_trimmed_paths!(tcx.def_path_str(def))), o);
                }
            }
            DefKind::Const { .. } | DefKind::AssocConst { .. } => {
                // evaluate if non-generic and has a value
                let generics = tcx.generics_of(def);
                let parent_is_trait = matches!(tcx.def_kind(tcx.parent(def)), DefKind::Trait);
                if !generics.requires_monomorphization(tcx) && !parent_is_trait {
                    let cty = tcx.type_of(def).instantiate_identity().skip_normalization();
                    let mut o = J::obj();
                    o.set("ty", J::s(ts(cty)));
                    o.set("span", J::s(cx.span_str(tcx.def_span(ldid))));
                    o.set("eff_pub", J::Bool(tcx.effective_visibilities(()).is_reachable(ldid)));
                    if let Ok(val) = tcx.const_eval_poly(def) {
                        if let Some(si) = val.try_to_scalar_int() {
                            let bits = si.to_bits(si.size());
                            let v: i128 = if cty.is_signed() { si.size().sign_extend(bits) as i128 } else { bits as i128 };
                            o.set("v", J::Int(v));
                        }
                        cx.describe_const_value(val, cty, &mut o);
                    }
                    consts.set(with_no_trimmed_paths!(tcx.def_path_str(def)), o);
                }
            }
            DefKind::Static { mutability, .. } => {
                let mut o = J::obj();
                o.set("path", J::s(with_no_trimmed_paths!(tcx.def_path_str(def))));
                o.set("mut", J::Bool(mutability.is_mut()));
                let sty = tcx.type_of(def).instantiate_identity().skip_normalization();
                o.set("ty", J::s(ts(sty)));
                o.set("freeze", J::Bool(sty.is_freeze(tcx, fm)));
                statics.push(o);
            }
            DefKind::Impl { of_trait } => {
                let mut o = J::obj();
                let self_ty = tcx.type_of(def).instantiate_identity().skip_normalization();
                o.set("self", J::s(ts(self_ty)));
                if let TyKind::Adt(a, _) = self_ty.kind() {
                    o.set("self_name", J::s(tcx.item_name(a.did()).to_string()));
                    o.set("self_crate", J::s(cx.crate_of(a.did())));
                }
                let generic = tcx.generics_of(def).requires_monomorphization(tcx);
                o.set("generic", J::Bool(generic));
                o.set("span", J::s(cx.span_str(tcx.def_span(ldid))));
                if of_trait {
                    let tr = tcx.impl_trait_ref(def).instantiate_identity().skip_normalization();
                    o.set("trait", J::s(with_no_trimmed_paths!(tcx.def_path_str(tr.def_id))));
                    o.set("trait_ref", J::s(with_no_trimmed_paths!(format!("{}", tr.print_only_trait_path()))));
                    // derived?
                    o.set("automatically_derived", J::Bool(tcx.is_automatically_derived(def)));
                }
                let mut its = vec![];
                for it in tcx.associated_items(def).in_definition_order() {
                    let mut ij = J::obj();
                    ij.set("name", J::s(it.name().to_string()));
                    ij.set("kind", J::s(format!("{:?}", it.kind).split(|c: char| !c.is_alphanumeric()).next().unwrap_or("").to_string()));
                    ij.set("path", J::s(with_no_trimmed_paths!(tcx.def_path_str(it.def_id))));
                    match it.kind {
                        ty::AssocKind::Type { .. } => {
                            let t = tcx.type_of(it.def_id).instantiate_identity().skip_normalization();
                            ij.set("ty", J::s(ts(t)));
                        }
                        ty::AssocKind::Const { .. } => {
                            let mut cty = tcx.type_of(it.def_id).instantiate_identity().skip_normalization();
                            if !generic {
                                cty = tcx.normalize_erasing_regions(fm, Unnormalized::new_wip(cty));
                            }
                            ij.set("ty", J::s(ts(cty)));
                            if !generic {
                                if let Ok(val) = tcx.const_eval_poly(it.def_id) {
                                    if let Some(si) = val.try_to_scalar_int() {
                                        ij.set("v", J::Int(si.to_bits(si.size()) as i128));
                                    }
                                    cx.describe_const_value(val, cty, &mut ij);
                                }
                            }
                        }
                        _ => {}
                    }
                    its.push(ij);
                }
                o.set("items", J::Arr(its));
                impls.push(o);
            }
            DefKind::Fn | DefKind::AssocFn | DefKind::Closure => {
                if mir_keys.contains(&ldid) {
                    local_fn_defs.push(ldid);
                }
            }
            _ => {}
        }
    }
    {
        let mut have: FxHashSet<LocalDefId> = local_fn_defs.iter().copied().collect();
        let mut extra: Vec<LocalDefId> = mir_keys
            .iter()
            .copied()
            .filter(|l| matches!(tcx.def_kind(l.to_def_id()), DefKind::Fn | DefKind::AssocFn | DefKind::Closure))
            .filter(|l| !have.contains(l))
            .collect();
        extra.sort_by_key(|l| tcx.def_path_str(l.to_def_id()));
        for l in extra {
            have.insert(l);
            local_fn_defs.push(l);
        }
    }
    root.set("consts", consts);
    root.set("impls", J::Arr(impls));
    root.set("statics", J::Arr(statics));

    // ---------------- polymorphic bodies
    let mut fns = J::obj();
    let mut roots: Vec<Instance<'tcx>> = vec![];
    for ldid in &local_fn_defs {
        let def = ldid.to_def_id();
        let env = TypingEnv::post_analysis(tcx, def);
        let body = tcx.optimized_mir(def);
        let mut o = cx.def_meta(def);
        let b = cx.body(body, env, false);
        o.set("body", b);
        let key = with_no_trimmed_paths!(tcx.def_path_str(def));
        fns.set(key, o);
        // root if fully non-generic fn/assoc fn
        if matches!(tcx.def_kind(def), DefKind::Fn | DefKind::AssocFn)
            && !tcx.generics_of(def).requires_monomorphization(tcx)
        {
            roots.push(Instance::mono(tcx, def));
        }
    }
    root.set("fns", fns);

    // ---------------- instance walk
    let mut visited: FxHashMap<Instance<'tcx>, usize> = FxHashMap::default();
    let mut order: Vec<Instance<'tcx>> = vec![];
    let mut queue: VecDeque<Instance<'tcx>> = VecDeque::new();
    let mut root_keys = vec![];
    for r in roots {
        root_keys.push(J::s(cx.inst_key(r)));
        if !visited.contains_key(&r) {
            visited.insert(r, order.len());
            order.push(r);
            queue.push_back(r);
        }
    }
    root.set("roots", J::Arr(root_keys));
    let mut nodes: Vec<J> = vec![];
    let mut insts = J::obj();
    let mut std_insts = J::obj();
    while let Some(inst) = queue.pop_front() {
        let key = cx.inst_key(inst);
        let mut node = J::obj();
        node.set("key", J::s(key.clone()));
        let def = inst.def_id();
        node.set("path", J::s(with_no_trimmed_paths!(tcx.def_path_str(def))));
        node.set("crate", J::s(cx.crate_of(def)));
        let is_repo = cx.is_repo_def(def) && matches!(inst.def, InstanceKind::Item(_));
        node.set("repo", J::Bool(is_repo));
        let kind = match inst.def {
            InstanceKind::Item(_) => "item",
            InstanceKind::Intrinsic(_) => "intrinsic",
            InstanceKind::Virtual(..) => "virtual",
            InstanceKind::DropGlue(..) => "drop",
            _ => "shim",
        };
        node.set("kind", J::s(kind));
        if !has_walkable_mir(tcx, inst) {
            node.set("nomir", J::Bool(true));
            if let InstanceKind::Item(d) = inst.def {
                if tcx.is_foreign_item(d) {
                    node.set("foreign", J::Bool(true));
                }
            }
            nodes.push(node);
            continue;
        }
        let body = tcx.instance_mir(inst.def);
        let mono = match inst.try_instantiate_mir_and_normalize_erasing_regions(tcx, fm, EarlyBinder::bind(body.clone())) {
            Ok(m) => m,
            Err(_) => {
                node.set("norm_error", J::Bool(true));
                nodes.push(node);
                continue;
            }
        };
        // collect edges
        let mut edges: Vec<J> = vec![];
        let mut push = |cx: &mut Cx<'tcx>, target: Instance<'tcx>, bb: usize, why: &str, edges: &mut Vec<J>| {
            let k = cx.inst_key(target);
            edges.push(J::obj().with("bb", J::Int(bb as i128)).with("to", J::s(k)).with("why", J::s(why)));
            if !visited.contains_key(&target) {
                visited.insert(target, order.len());
                order.push(target);
                queue.push_back(target);
            }
        };
        for (bbi, bb) in mono.basic_blocks.iter_enumerated() {
            let bbn = bbi.as_usize();
            for st in bb.statements.iter() {
                if let StatementKind::Assign(b) = &st.kind {
                    let (_, rv) = &**b;
                    match rv {
                        Rvalue::Cast(CastKind::PointerCoercion(PointerCoercion::Unsize, _), op, target_ty) => {
                            let src_ty = op.ty(&mono, tcx);
                            let sp = src_ty.builtin_deref(true).or_else(|| src_ty.boxed_ty());
                            let tp = target_ty.builtin_deref(true).or_else(|| target_ty.boxed_ty());
                            if let (Some(sp), Some(tp)) = (sp, tp) {
                                let (tail_s, tail_t) = tcx.struct_lockstep_tails_for_codegen(sp, tp, fm);
                                if let TyKind::Dynamic(preds, ..) = tail_t.kind() {
                                    if !matches!(tail_s.kind(), TyKind::Dynamic(..)) {
                                        if let Some(principal) = preds.principal() {
                                            let trait_ref = tcx.instantiate_bound_regions_with_erased(
                                                principal.with_self_ty(tcx, tail_s),
                                            );
                                            for e in tcx.vtable_entries(trait_ref).iter() {
                                                if let ty::VtblEntry::Method(m) = e {
                                                    push(&mut cx, *m, bbn, "vtable", &mut edges);
                                                }
                                            }
                                        }
                                    }
                                }
                            }
                        }
                        Rvalue::Cast(CastKind::PointerCoercion(PointerCoercion::ReifyFnPointer(_), _), op, _) => {
                            if let TyKind::FnDef(d, a) = op.ty(&mono, tcx).kind() {
                                if let Ok(Some(i)) = Instance::try_resolve(tcx, fm, *d, a) {
                                    push(&mut cx, i, bbn, "reify", &mut edges);
                                }
                            }
                        }
                        Rvalue::Cast(CastKind::PointerCoercion(PointerCoercion::ClosureFnPointer(_), _), op, _) => {
                            if let TyKind::Closure(d, a) = op.ty(&mono, tcx).kind() {
                                let i = Instance::resolve_closure(tcx, *d, a, ty::ClosureKind::FnOnce);
                                push(&mut cx, i, bbn, "closure_fnptr", &mut edges);
                            }
                        }
                        _ => {}
                    }
                }
            }
            match &bb.terminator().kind {
                TerminatorKind::Call { func, .. } | TerminatorKind::TailCall { func, .. } => {
                    let fty = func.ty(&mono, tcx);
                    match fty.kind() {
                        TyKind::FnDef(d, a) => match Instance::try_resolve(tcx, fm, *d, a) {
                            Ok(Some(i)) => push(&mut cx, i, bbn, "call", &mut edges),
                            _ => {
                                edges.push(
                                    J::obj()
                                        .with("bb", J::Int(bbn as i128))
                                        .with("unresolved", J::s(with_no_trimmed_paths!(tcx.def_path_str_with_args(*d, a)))),
                                );
                            }
                        },
                        _ => {
                            edges.push(J::obj().with("bb", J::Int(bbn as i128)).with("indirect", J::s(ts(fty))));
                        }
                    }
                }
                TerminatorKind::Drop { place, .. } => {
                    let pty = place.ty(&mono, tcx).ty;
                    if pty.needs_drop(tcx, fm) {
                        let i = Instance::resolve_drop_in_place(tcx, pty);
                        push(&mut cx, i, bbn, "drop", &mut edges);
                    }
                }
                TerminatorKind::InlineAsm { .. } => {
                    edges.push(J::obj().with("bb", J::Int(bbn as i128)).with("asm", J::Bool(true)));
                }
                _ => {}
            }
        }
        node.set("edges", J::Arr(edges));
        // panic edges that are not calls: Assert terminators (overflow / bounds / div-by-zero / misaligned / null checks)
        let n_asserts = mono.basic_blocks.iter().filter(|bb| !bb.is_cleanup && matches!(bb.terminator().kind, TerminatorKind::Assert { .. })).count();
        node.set("asserts", J::Int(n_asserts as i128));
        nodes.push(node);
        if is_repo {
            let mut o = cx.def_meta(def);
            o.set("key", J::s(key.clone()));
            let mut ga = vec![];
            for g in inst.args.iter() {
                if let Some(t) = g.as_type() {
                    ga.push(cx.ty(t, fm));
                }
            }
            o.set("gargs", J::Arr(ga));
            let b = cx.body(&mono, fm, true);
            o.set("body", b);
            insts.set(key, o);
        } else if transparent_std(tcx, inst) {
            // small std combinators / shims whose bodies the rules splice into their callers (see mb2rules/inline.py)
            let mut o = J::obj();
            o.set("key", J::s(key.clone()));
            o.set("path", J::s(with_no_trimmed_paths!(tcx.def_path_str(def))));
            o.set("crate", J::s(cx.crate_of(def)));
            o.set("name", J::s(tcx.opt_item_name(def).map(|n| n.to_string()).unwrap_or_default()));
            o.set("std", J::Bool(true));
            o.set("inst_kind", J::s(kind));
            o.set("closure", J::Bool(false));
            let b = cx.body(&mono, fm, true);
            o.set("body", b);
            std_insts.set(key, o);
        }
    }
    root.set("graph", J::Arr(nodes));
    root.set("insts", insts);
    root.set("std_insts", std_insts);

    cx.drain_adts();
    // drain may enqueue more (field types); loop until stable
    while !cx.adt_queue.is_empty() {
        cx.drain_adts();
    }
    let mut tys = J::obj();
    let mut keys: Vec<&String> = cx.tys.keys().collect();
    keys.sort();
    for k in keys {
        tys.set(k.clone(), cx.tys[k].clone());
    }
    root.set("tys", tys);
    let mut adts = J::obj();
    let mut keys: Vec<&String> = cx.adts.keys().collect();
    keys.sort();
    for k in keys {
        adts.set(k.clone(), cx.adts[k].clone());
    }
    root.set("adts", adts);

    let mut s = String::new();
    root.write(&mut s);
    let s = fix_crate_prefix(&s, name);
    let _ = std::fs::create_dir_all(out_dir);
    let path = format!("{}/{}.json", out_dir, name);
    let tmp = format!("{}.tmp.{}", path, std::process::id());
    std::fs::write(&tmp, s).expect("write facts");
    std::fs::rename(&tmp, &path).expect("rename facts");
    let _ = LOCAL_CRATE;
}

fn rustc_version() -> String {
    option_env!("CFG_VERSION").map(|s| s.to_string()).unwrap_or_else(|| {
        std::env::var("MB2FACTS_RUSTC_VERSION").unwrap_or_else(|_| "unknown".into())
    })
}

#[allow(dead_code)]
fn _unused(_: BinOp) {}

/// `with_crate_prefix!` prints local paths as `crate::…`; rewrite to the crate's name so
/// that keys are identical whether an item is seen from its own crate or from downstream.
fn fix_crate_prefix(s: &str, name: &str) -> String {
    let pat = "crate::";
    let mut out = String::with_capacity(s.len() + s.len() / 16);
    let bytes = s.as_bytes();
    let mut i = 0;
    let mut last = 0;
    while let Some(pos) = s[i..].find(pat) {
        let at = i + pos;
        let prev_ok = at == 0 || {
            let c = bytes[at - 1];
            !(c.is_ascii_alphanumeric() || c == b'_')
        };
        if prev_ok {
            out.push_str(&s[last..at]);
            out.push_str(name);
            out.push_str("::");
            last = at + pat.len();
        }
        i = at + pat.len();
    }
    out.push_str(&s[last..]);
    out
}
