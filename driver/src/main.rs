//! mb2facts — rustc_private fact extractor for the multiboot2 static checks.
//!
//! Used as RUSTC_WORKSPACE_WRAPPER under `cargo +nightly check`. For each of the
//! three repository crates it writes one JSON fact file to $MB2FACTS_OUT:
//! layouts, consts, impl tables, polymorphic MIR of every local body and the
//! monomorphic MIR of every instance reachable from the crate's non-generic
//! functions (descending through upstream generic code and std).
#![feature(rustc_private)]
#![allow(clippy::all)]

extern crate rustc_abi;
extern crate rustc_data_structures;
extern crate rustc_driver;
extern crate rustc_hir;
extern crate rustc_interface;
extern crate rustc_middle;
extern crate rustc_session;
extern crate rustc_span;

mod json;
mod emit;

use rustc_driver::{Callbacks, Compilation};
use rustc_interface::interface::Compiler;
use rustc_middle::ty::TyCtxt;
use rustc_span::def_id::LOCAL_CRATE;

struct Cb;

const CRATES: &[&str] = &["multiboot2", "multiboot2_common", "multiboot2_header"];

impl Callbacks for Cb {
    fn after_analysis<'tcx>(&mut self, _c: &Compiler, tcx: TyCtxt<'tcx>) -> Compilation {
        let name = tcx.crate_name(LOCAL_CRATE).to_string();
        let extra = std::env::var("MB2FACTS_EXTRA_CRATES").unwrap_or_default();
        let wanted = CRATES.contains(&name.as_str()) || extra.split(',').any(|c| c == name);
        if wanted {
            if let Ok(out) = std::env::var("MB2FACTS_OUT") {
                // Skip build scripts / proc-macro crates / test harness builds.
                let is_test = tcx.sess.opts.test;
                if !is_test {
                    emit::emit_crate(tcx, &name, &out);
                }
            }
        }
        Compilation::Continue
    }
}

fn main() {
    let mut args: Vec<String> = std::env::args().collect();
    // RUSTC_WORKSPACE_WRAPPER mode: argv[1] is the path of the real rustc.
    if args.len() > 1 && (args[1].ends_with("rustc") || args[1].ends_with("rustc.exe")) {
        args.remove(1);
    }
    let mut cb = Cb;
    rustc_driver::run_compiler(&args, &mut cb);
}
