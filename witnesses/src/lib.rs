//! Compile-fail witnesses (type-level remainder of C15 / C01 / C06 / C04). Nothing here is executed:
//! every `compile_fail,E....` test must fail to compile with that error code, and its `no_run` twin, which differs only in
//! the offending line, must compile. Run by `./check <ID> --tier thorough` through mb2rules/witness.py.

/// K6a (C15): `cast::<T>()` rejects a `T` whose `Header` is not the structure's header type.
/// ```compile_fail,E0271
/// use multiboot2_common::{DynSizedStructure, MaybeDynSized};
/// use multiboot2::TagHeader;
/// fn f(t: &DynSizedStructure<TagHeader>) { let _ = t.cast::<multiboot2_header::EndHeaderTag>(); }
/// ```
/// twin:
/// ```no_run
/// use multiboot2_common::{DynSizedStructure, MaybeDynSized};
/// use multiboot2::TagHeader;
/// fn f(t: &DynSizedStructure<TagHeader>) { let _ = t.cast::<multiboot2::EndTag>(); }
/// ```
pub struct K6aCastOtherHeader;

/// K6b (C15/C04): `BootInformation::get_tag::<T>()` rejects a `T` whose `IDType` is not `TagType` (a header-crate tag).
/// ```compile_fail,E0271
/// fn f(bi: &multiboot2::BootInformation) { let _ = bi.get_tag::<multiboot2_header::AddressHeaderTag>(); }
/// ```
/// twin:
/// ```no_run
/// fn f(bi: &multiboot2::BootInformation) { let _ = bi.get_tag::<multiboot2::ApmTag>(); }
/// ```
pub struct K6bGetTagOtherIdType;

/// K6c (C15): `cast` needs `T: MaybeDynSized` at all.
/// ```compile_fail,E0277
/// use multiboot2_common::DynSizedStructure;
/// fn f(t: &DynSizedStructure<multiboot2::TagHeader>) { let _: &u64 = t.cast::<u64>(); }
/// ```
/// twin:
/// ```no_run
/// use multiboot2_common::DynSizedStructure;
/// fn f(t: &DynSizedStructure<multiboot2::TagHeader>) { let _: &multiboot2::EFISdt64Tag = t.cast::<multiboot2::EFISdt64Tag>(); }
/// ```
pub struct K6cCastNotATag;

/// P9 (C01): a tag reference cannot outlive the `BootInformation` it was obtained from.
/// ```compile_fail,E0597
/// fn f(p: *const multiboot2::BootInformationHeader) {
///     let tag;
///     {
///         let bi = unsafe { multiboot2::BootInformation::load(p) }.unwrap();
///         tag = bi.command_line_tag();
///     }
///     let _ = tag;
/// }
/// ```
/// twin:
/// ```no_run
/// fn f(p: *const multiboot2::BootInformationHeader) {
///     let tag;
///     let bi = unsafe { multiboot2::BootInformation::load(p) }.unwrap();
///     {
///         tag = bi.command_line_tag();
///     }
///     let _ = tag;
/// }
/// ```
pub struct P9TagOutlivesInfo;

/// SLOT (C06): a builder slot only accepts its own tag type.
/// ```compile_fail,E0308
/// let _ = multiboot2::Builder::new().cmdline(multiboot2::BootLoaderNameTag::new("x"));
/// ```
/// twin:
/// ```no_run
/// let _ = multiboot2::Builder::new().cmdline(multiboot2::CommandLineTag::new("x"));
/// ```
pub struct SlotType;

/// SLOT-H (C12): same for the header builder.
/// ```compile_fail,E0308
/// use multiboot2_header::*;
/// let _ = Builder::new(HeaderTagISA::I386).efi_32_tag(EntryEfi64HeaderTag::new(HeaderTagFlag::Required, 0));
/// ```
/// twin:
/// ```no_run
/// use multiboot2_header::*;
/// let _ = Builder::new(HeaderTagISA::I386).efi_64_tag(EntryEfi64HeaderTag::new(HeaderTagFlag::Required, 0));
/// ```
pub struct SlotTypeHeader;

/// PRIV (C14/C18/C19): the state of the validated wrappers cannot be forged from outside (private fields).
/// ```compile_fail,E0451
/// let b: &[u8] = &[];
/// let _ = multiboot2_common::BytesRef::<multiboot2::TagHeader> { bytes: b, _h: core::marker::PhantomData };
/// ```
/// twin:
/// ```no_run
/// let b: &[u8] = &[];
/// let _ = multiboot2_common::BytesRef::<multiboot2::TagHeader>::try_from(b);
/// ```
pub struct PrivBytesRef;
