#!/bin/bash
# usage: extract.sh <out_dir> <cfg: A|B|C|D>
set -e
OUT=$1; CFG=${2:-A}
export CARGO_NET_OFFLINE=true
SYS=$(rustc +nightly --print sysroot)
FLAGS="-Zmir-opt-level=0 -Zalways-encode-mir -Awarnings -Coverflow-checks=on"
FEAT=""
case $CFG in
  A) FLAGS="$FLAGS -Cdebug-assertions=off";;
  B) FLAGS="$FLAGS -Cdebug-assertions=off"; FEAT="--no-default-features";;
  C) FLAGS="$FLAGS -Cdebug-assertions=off"; FEAT="--no-default-features --features multiboot2/alloc,multiboot2-header/alloc,multiboot2-common/alloc";;
  D) FLAGS="$FLAGS -Cdebug-assertions=on -Zub-checks=no";;
esac
T=$(mktemp -d /tmp/mb2x.XXXXXX)
trap 'rm -rf "$T"' EXIT
mkdir -p "$OUT"
cd /repo
LD_LIBRARY_PATH=$SYS/lib MB2FACTS_OUT=$OUT RUSTFLAGS="$FLAGS" RUSTC_WORKSPACE_WRAPPER=/verif/driver/target/release/mb2facts CARGO_TARGET_DIR=$T \
  cargo +nightly check --offline --workspace --lib $FEAT >"$OUT/cargo.log" 2>&1 || { tail -40 "$OUT/cargo.log"; exit 2; }
for c in multiboot2 multiboot2_common multiboot2_header; do
  test -s "$OUT/$c.json" || { echo "missing fact file $c" ; exit 2; }
done
